"""Mechanical extraction of real items from /repo and generation of one Verus file per unit."""
import hashlib
import os
import re

from . import rustlex
from .spec import Fn, Type, Impl, Raw


class Undecided(Exception):
    """extraction cannot be performed (lost item / anchor): exit 2, never a violation"""


REPO = os.environ.get("VERIF_REPO", "/repo")
UNITS_DIR = os.path.join(os.path.dirname(os.path.dirname(os.path.abspath(__file__))), "units")

_src_cache = {}


def source(file):
    p = os.path.join(REPO, file)
    if p not in _src_cache:
        try:
            with open(p, encoding="utf-8") as f:
                text = f.read()
        except OSError as e:
            raise Undecided("cannot read %s: %s" % (p, e))
        try:
            _src_cache[p] = rustlex.SourceFile(file, text)
        except rustlex.LexError as e:
            raise Undecided("cannot lex %s: %s" % (p, e))
    return _src_cache[p]


def apply_rewrites(text, rewrites, log, where):
    for rw in rewrites:
        if getattr(rw, "regex", False):
            rx = re.compile(rw.old, re.S)
            found = rx.findall(text)
            if rw.count is None:
                if found:
                    text = rx.sub(rw.new, text)
                    log.append({"item": where, "rule": rw.rule, "old_pattern": rw.old, "new_template": rw.new if isinstance(rw.new, str) else (rw.new.__doc__ or "computed"), "count": len(found), "why": rw.why})
                continue
            if len(found) != rw.count:
                raise Undecided("%s: rewrite pattern %r found %d times, expected %d" % (where, rw.old, len(found), rw.count))
            text = rx.sub(rw.new, text)
            log.append({"item": where, "rule": rw.rule, "old_pattern": rw.old, "new_template": rw.new if isinstance(rw.new, str) else (rw.new.__doc__ or "computed"), "count": rw.count, "why": rw.why})
            continue
        n = text.count(rw.old)
        if rw.count is None:
            if n:
                text = text.replace(rw.old, rw.new)
                log.append({"item": where, "rule": rw.rule, "old": rw.old, "new": rw.new, "count": n, "why": rw.why})
            continue
        if n != rw.count:
            raise Undecided("%s: rewrite anchor %r found %d times, expected %d" % (where, rw.old, n, rw.count))
        text = text.replace(rw.old, rw.new)
        log.append({"item": where, "rule": rw.rule, "old": rw.old, "new": rw.new, "count": rw.count, "why": rw.why})
    return text


def apply_inserts(text, inserts, log, where, probe_labels=frozenset()):
    for ins in inserts:
        if getattr(ins, "finding", None) and ("guard:" + ins.finding) in probe_labels:
            continue
        if getattr(ins, "finding", None) and text.find(ins.anchor) < 0:
            # the statement a known-finding guard was attached to is gone or re-shaped: no guard is inserted and
            # the verifier decides; if the finding's own obligation then resurfaces it is reported as undecided
            log.append({"item": where, "rule": ins.rule, "anchor": ins.anchor, "lost_guard": ins.finding,
                        "why": "guard anchor of known finding %s not found; nothing inserted" % ins.finding})
            continue
        pos = -1
        start = 0
        for _ in range(ins.occ):
            pos = text.find(ins.anchor, start)
            if pos < 0:
                raise Undecided("%s: insert anchor %r (occurrence %d) not found" % (where, ins.anchor, ins.occ))
            start = pos + 1
        if ins.where == "before":
            text = text[:pos] + ins.text + text[pos:]
        else:
            e = pos + len(ins.anchor)
            text = text[:e] + ins.text + text[e:]
        log.append({"item": where, "rule": ins.rule, "anchor": ins.anchor, "occ": ins.occ, "where": ins.where,
                    "inserted": ins.text, "why": ins.why})
    return text


DERIVE_RE = re.compile(r"#\[derive\(([^)]*)\)\]\s*")


def strip_vis(text):
    # R2: private / pub(super) / pub(crate) -> handled by making everything pub
    return text


def make_pub_fields(text):
    """R2: struct fields -> pub (named-field structs only); idempotent"""
    toks = rustlex.lex(text)
    pairs = rustlex.match_brackets(toks)
    # find the body braces
    k = 0
    while k < len(toks) and toks[k].text != "{":
        if toks[k].text in rustlex.OPEN:
            k = pairs[k]
        k += 1
    if k >= len(toks):
        return text
    close = pairs[k]
    out = []
    last = 0
    i = k + 1
    at_field_start = True
    while i < close:
        t = toks[i]
        if at_field_start:
            # skip attributes
            while toks[i].text == "#":
                i = pairs[i + 1] + 1
            t = toks[i]
            if t.kind == "id" and t.text == "pub":
                # pub(...) -> pub
                if toks[i + 1].text == "(":
                    out.append(text[last:toks[i + 1].start])
                    last = toks[pairs[i + 1]].end
            elif t.kind == "id":
                out.append(text[last:t.start])
                out.append("pub ")
                last = t.start
            at_field_start = False
        if t.text in rustlex.OPEN:
            i = pairs[i]
        elif t.text == "," :
            at_field_start = True
        elif t.text == "<":
            # generic args may contain commas: skip to matching '>' (no nesting of () needed)
            depth = 1
            i += 1
            while i < close and depth > 0:
                if toks[i].text == "<":
                    depth += 1
                elif toks[i].text == ">" and toks[i - 1].text != "-":
                    depth -= 1
                elif toks[i].text in rustlex.OPEN:
                    i = pairs[i]
                i += 1
            continue
        i += 1
    out.append(text[last:])
    return "".join(out)


def name_return(sig, ret, where):
    """`-> T` => `-> (ret: T)` in a fn signature prefix (text before the body)"""
    toks = rustlex.lex(sig)
    pairs = rustlex.match_brackets(toks)
    # find `fn`, then the parameter list
    k = 0
    while k < len(toks) and not (toks[k].kind == "id" and toks[k].text == "fn"):
        if toks[k].text in rustlex.OPEN:
            k = pairs[k]
        k += 1
    while k < len(toks) and toks[k].text != "(":
        k += 1
    if k >= len(toks):
        raise Undecided("%s: no parameter list" % where)
    k = pairs[k] + 1
    if k + 1 < len(toks) and toks[k].text == "-" and toks[k + 1].text == ">":
        ty_start = toks[k + 1].end
        # return type ends at `where` keyword at depth 0 or end of sig
        j = k + 2
        ty_end = len(sig)
        while j < len(toks):
            if toks[j].kind == "id" and toks[j].text == "where":
                ty_end = toks[j].start
                break
            if toks[j].text in rustlex.OPEN:
                j = pairs[j]
            j += 1
        ty = sig[ty_start:ty_end].strip()
        return sig[:toks[k].start] + "-> (" + ret + ": " + ty + ")\n" + sig[ty_end:]
    return sig


def _with_loops(fn, loops):
    import copy
    f = copy.copy(fn)
    f.loops = loops
    return f


def closure_spans(b):
    """locate closures in a body: returns list of (start_of_params, end_of_params, body_start, body_end, is_block)"""
    toks = rustlex.lex(b)
    pairs = rustlex.match_brackets(toks)
    closer = {}
    for o, c in pairs.items():
        closer[o] = c
    # enclosing bracket close for each token index
    res = []
    i = 0
    n = len(toks)
    while i < n:
        t = toks[i]
        if t.kind == "punct" and t.text == "|":
            prev = toks[i - 1] if i > 0 else None
            starts = prev is None or (prev.kind == "punct" and prev.text in "(,=:{;[") or (prev.kind == "id" and prev.text in ("move", "return", "mut"))
            if starts:
                # params until next '|' at depth 0
                j = i + 1
                while j < n and not (toks[j].kind == "punct" and toks[j].text == "|"):
                    if toks[j].text in rustlex.OPEN:
                        j = pairs[j]
                    j += 1
                if j >= n:
                    break
                k = j + 1
                # optional return type `-> T`
                if k + 1 < n and toks[k].text == "-" and toks[k + 1].text == ">":
                    while k < n and toks[k].text != "{":
                        k += 1
                if k < n and toks[k].text == "{":
                    res.append((t.start, toks[j].end, toks[k].start, toks[pairs[k]].end, True))
                    i = pairs[k] + 1
                    continue
                # expression body: until ',' or closing bracket at depth 0
                m = k
                while m < n:
                    tt = toks[m].text
                    if toks[m].kind == "punct" and tt in rustlex.OPEN:
                        m = pairs[m] + 1
                        continue
                    if toks[m].kind == "punct" and (tt in rustlex.CLOSE or tt == "," or tt == ";"):
                        break
                    m += 1
                res.append((t.start, toks[j].end, toks[k].start, toks[m - 1].end, False))
                i = j + 1
                continue
        i += 1
    return res


def annotate_closures(b, closures, g, where):
    spans = closure_spans(b)
    for k in sorted(closures, reverse=True):
        if k > len(spans):
            raise Undecided("%s: closure #%d not found (function has %d closures)" % (where, k, len(spans)))
        ps, pe, bs, be, is_block = spans[k - 1]
        header, proof = closures[k]
        # R4 keeps the closure's own parameter list: the names must agree, and a type the source spells out must be
        # spelled the same way in the header (otherwise the header would silently change the code, e.g. the target
        # type of a `try_into()` inferred from the parameter)
        def _params(txt):
            inner = txt.strip()
            if not (inner.startswith("|") and "|" in inner[1:]):
                return None
            inner = inner[1:inner.index("|", 1)]
            out = []
            depth = 0
            cur = ""
            for ch in inner:
                if ch in "(<[":
                    depth += 1
                elif ch in ")>]":
                    depth -= 1
                if ch == "," and depth == 0:
                    out.append(cur)
                    cur = ""
                else:
                    cur += ch
            if cur.strip():
                out.append(cur)
            res = []
            for q in out:
                if ":" in q:
                    nm, ty = q.split(":", 1)
                    res.append((nm.strip(), re.sub(r"\s+", "", ty)))
                else:
                    res.append((q.strip(), None))
            return res
        src_params = _params(b[ps:pe])
        hdr_params = _params(header)
        if src_params is not None and hdr_params is not None:
            plain = all(re.match(r"^(mut\s+)?[A-Za-z_][A-Za-z0-9_]*$", n) for n, _ in src_params)
            if plain:
                if [n for n, _ in src_params] != [n for n, _ in hdr_params] and not (len(src_params) == len(hdr_params) and all(h.startswith("verif_") or h == s_ or s_ == "_" for (s_, _), (h, _) in zip(src_params, hdr_params))):
                    raise Undecided("%s: closure #%d: parameter names %r differ from the header's %r" % (where, k, [n for n, _ in src_params], [n for n, _ in hdr_params]))
                for (sn, st), (hn, ht) in zip(src_params, hdr_params):
                    if ht == "_":
                        # `name: _` in the header: the parameter keeps the type the source spells out
                        if st is None:
                            raise Undecided("%s: closure #%d: parameter `%s` has no type in the source to take over" % (where, k, sn))
                        m_ = re.search(r"\b%s\s*:\s*_" % re.escape(hn), header)
                        src_ty = re.search(r"\b%s\s*:\s*([^,|]+)" % re.escape(sn), b[ps:pe]).group(1).strip()
                        header = header[:m_.start()] + "%s: %s" % (hn, src_ty) + header[m_.end():]
                        continue
                    if st is not None and ht is not None and st != ht:
                        raise Undecided("%s: closure #%d: parameter `%s` has type `%s` in the source but `%s` in the contract table" % (where, k, sn, st, ht))
        body = b[bs:be]
        if is_block:
            inner = body[1:-1]
        else:
            inner = body
        new = header + " { " + (proof + " " if proof else "") + inner + " }"
        g.rewrites.append({"item": where, "rule": "R4", "closure": k, "old_header": b[ps:pe], "new_header": header, "proof": proof,
                           "why": "closure header with types and spec; body kept verbatim" + ("" if is_block else ", wrapped in braces")})
        b = b[:ps] + new + b[be:]
    return b


def unroll_array_loops(b, ordinals, g, where):
    """R39: `for x in [E1, E2, ..] { BODY }` over an array LITERAL => `{ let x = E1; { BODY } } { let x = E2; { BODY } } ..`
    (the definition of iterating a fixed array; refused when BODY contains `break` or `continue`). Ordinals refer to
    the body before the rewrite; they are processed from the last to the first, later loops are renumbered."""
    for k in sorted(ordinals, reverse=True):
        offs = rustlex.loop_body_offsets(b)
        if k > len(offs):
            raise Undecided("%s: R39 loop #%d not found" % (where, k))
        kw, kwpos, bpos = offs[k - 1]
        header = b[kwpos:bpos]
        m = re.match(r"for\s+([A-Za-z_][A-Za-z0-9_]*)\s+in\s+\[(.*)\]\s*$", header, re.S)
        if kw != "for" or not m:
            raise Undecided("%s: R39 loop #%d is not a for loop over an array literal: %r" % (where, k, header))
        var, elems = m.group(1), [e.strip() for e in m.group(2).split(",") if e.strip()]
        btoks = rustlex.lex(b)
        bpairs = rustlex.match_brackets(btoks)
        close = None
        for o, c in bpairs.items():
            if btoks[o].start == bpos:
                close = btoks[c].start
        body = b[bpos:close + 1]
        if re.search(r"\b(break|continue)\b", body):
            raise Undecided("%s: R39 loop #%d: body contains break/continue" % (where, k))
        new = " ".join("{ let %s = %s; %s }" % (var, e, body) for e in elems)
        b = b[:kwpos] + new + b[close + 1:]
        g.rewrites.append({"item": where, "rule": "R39", "loop": k, "old": header.strip(), "new": "one copy of the body per element, with `let %s = <element>;` in front" % var,
                           "why": "for over an array literal (no Verus support for array IntoIter) -> the body once per element, in order"})
    return b


def desugar_for_ranges(b, ordinals, g, where):
    """R15: `for x in LO..HI { BODY }`  =>  `{ let verif_hi_K = HI; let mut verif_next_K = LO;
    while verif_next_K < verif_hi_K { let x = verif_next_K; verif_next_K += 1; BODY } }`
    (the definition of iterating an integer Range; loop ordinals are unchanged)"""
    for k in sorted(ordinals, reverse=True):
        offs = rustlex.loop_body_offsets(b)
        if k > len(offs):
            raise Undecided("%s: R15 loop #%d not found" % (where, k))
        kw, kwpos, bpos = offs[k - 1]
        if kw != "for":
            raise Undecided("%s: R15 loop #%d is not a for loop" % (where, k))
        header = b[kwpos:bpos]
        menum = re.match(r"for\s+\(\s*([A-Za-z_][A-Za-z0-9_]*)\s*,\s*([A-Za-z_][A-Za-z0-9_]*)\s*\)\s+in\s+([A-Za-z_][A-Za-z0-9_.]*)\.iter\(\)\.enumerate\(\)\s*$", header, re.S)
        if menum:
            # R30: `for (i, x) in VEC.iter().enumerate() { BODY }` => `{ let verif_vec_K = &VEC; let mut verif_next_K: usize = 0;
            # while verif_next_K < verif_vec_K.len() { let (i, x) = (verif_next_K, &verif_vec_K[verif_next_K]); verif_next_K += 1; BODY } }`
            ivar, xvar, vec = menum.group(1), menum.group(2), menum.group(3)
            btoks = rustlex.lex(b)
            bpairs = rustlex.match_brackets(btoks)
            close = None
            for o, c in bpairs.items():
                if btoks[o].start == bpos:
                    close = btoks[c].start
            new_head = "{ let verif_vec_%d = &%s; let mut verif_next_%d: usize = 0;\n        while verif_next_%d < verif_vec_%d.len()\n        " % (k, vec, k, k, k)
            body_intro = " let (%s, %s) = (verif_next_%d, &verif_vec_%d[verif_next_%d]); verif_next_%d += 1;" % (ivar, xvar, k, k, k, k)
            b = b[:kwpos] + new_head + "{" + body_intro + b[bpos + 1:close + 1] + " }" + b[close + 1:]
            g.rewrites.append({"item": where, "rule": "R30", "loop": k, "old": header.strip(),
                               "new": (new_head + "{" + body_intro).strip(),
                               "why": "for over `slice.iter().enumerate()` (no Verus support for the Enumerate adapter) -> index/while loop yielding (index, &element)"})
            continue
        m = re.match(r"for\s+([A-Za-z_][A-Za-z0-9_]*)\s+in\s+(.*)$", header, re.S)
        if not m:
            raise Undecided("%s: R15 loop #%d: unsupported header %r" % (where, k, header))
        var, rng = m.group(1), m.group(2).strip()
        # split on `..` at bracket depth 0
        toks = rustlex.lex(rng)
        pairs = rustlex.match_brackets(toks)
        i = 0
        split = None
        while i < len(toks) - 1:
            if toks[i].text in rustlex.OPEN:
                i = pairs[i]
            elif toks[i].text == "." and toks[i + 1].text == "." and toks[i + 1].start == toks[i].end:
                split = (toks[i].start, toks[i + 1].end)
                break
            i += 1
        mfwdit = re.match(r"^([A-Za-z_][A-Za-z0-9_.]*)\.iter\(\)$", rng, re.S)
        if split is None and mfwdit:
            rng = "&" + mfwdit.group(1)      # R21: `VEC.iter()` is the iteration of `&VEC`
        mrevit = re.match(r"^([A-Za-z_][A-Za-z0-9_.]*)\.iter\(\)\.rev\(\)$", rng, re.S)
        if split is None and mrevit:
            # R36: `for x in VEC.iter().rev() { BODY }` => `{ let verif_vec_K = &VEC; let mut verif_next_K: usize = verif_vec_K.len();
            # while verif_next_K > 0 { verif_next_K -= 1; let x = &verif_vec_K[verif_next_K]; BODY } }` (the elements last to first)
            vec = mrevit.group(1)
            btoks = rustlex.lex(b)
            bpairs = rustlex.match_brackets(btoks)
            close = None
            for o, c in bpairs.items():
                if btoks[o].start == bpos:
                    close = btoks[c].start
            new_head = "{ let verif_vec_%d = &%s; let mut verif_next_%d: usize = verif_vec_%d.len();\n        while verif_next_%d > 0\n        " % (k, vec, k, k, k)
            body_intro = " verif_next_%d -= 1; let %s = &verif_vec_%d[verif_next_%d];" % (k, var, k, k)
            b = b[:kwpos] + new_head + "{" + body_intro + b[bpos + 1:close + 1] + " }" + b[close + 1:]
            g.rewrites.append({"item": where, "rule": "R36", "loop": k, "old": header.strip(),
                               "new": (new_head + "{" + body_intro).strip(),
                               "why": "for over `slice.iter().rev()` (no Verus support for the Rev adapter) -> index/while loop from the last element to the first"})
            continue
        mflat = re.match(r"^([A-Za-z_][A-Za-z0-9_.]*)\.iter\(\)\.flat_map\(\s*\|\s*([a-z_][a-z_0-9]*)\s*\|\s*\2\.iter\(\)\s*\)$", rng, re.S)
        if split is None and mflat:
            # R37: `for x in GROUPS.iter().flat_map(|e| e.iter()) { BODY }` (GROUPS: an array/slice of slices) =>
            # `{ let verif_vec_K = &GROUPS; let mut verif_group_K: usize = 0; let mut verif_next_K: usize = 0;
            #    while verif_group_K < verif_vec_K.len() { if verif_next_K >= verif_vec_K[verif_group_K].len()
            #    { verif_group_K += 1; verif_next_K = 0; continue; } let x = &verif_vec_K[verif_group_K][verif_next_K]; verif_next_K += 1; BODY } }`
            # ONE loop (so `break`/`continue` in BODY keep their meaning and loop ordinals are unchanged): the elements of
            # every group in order, the groups in order
            vec = mflat.group(1)
            btoks = rustlex.lex(b)
            bpairs = rustlex.match_brackets(btoks)
            close = None
            for o, c in bpairs.items():
                if btoks[o].start == bpos:
                    close = btoks[c].start
            new_head = ("{ let verif_vec_%d = &%s; let mut verif_group_%d: usize = 0; let mut verif_next_%d: usize = 0;\n        while verif_group_%d < verif_vec_%d.len()\n        "
                        % (k, vec, k, k, k, k))
            body_intro = (" if verif_next_%d >= verif_vec_%d[verif_group_%d].len() { verif_group_%d += 1; verif_next_%d = 0; continue; }"
                          " let %s = &verif_vec_%d[verif_group_%d][verif_next_%d]; verif_next_%d += 1;" % (k, k, k, k, k, var, k, k, k, k))
            b = b[:kwpos] + new_head + "{" + body_intro + b[bpos + 1:close + 1] + " }" + b[close + 1:]
            g.rewrites.append({"item": where, "rule": "R37", "loop": k, "old": header.strip(),
                               "new": (new_head + "{" + body_intro).strip(),
                               "why": "for over `groups.iter().flat_map(|e| e.iter())` (no Verus support for FlatMap) -> one index/while loop over (group, element) pairs: groups in order, each group's elements in order"})
            continue
        mval = re.match(r"^(verif_[a-z_0-9]+\(.*\)|[a-z_][a-z_0-9]*)$", rng, re.S)
        if split is None and mval and not re.match(r"^&", rng):
            # R21 (by value): `for x in VEC_EXPR { BODY }` over a Vec of Copy elements (a wrapper call returning a Vec, or a
            # local Vec that is not used afterwards) => `{ let verif_vec_K = VEC_EXPR; let mut verif_next_K: usize = 0;
            # while verif_next_K < verif_vec_K.len() { let x = verif_vec_K[verif_next_K]; verif_next_K += 1; BODY } }`
            src = mval.group(1)
            btoks = rustlex.lex(b)
            bpairs = rustlex.match_brackets(btoks)
            close = None
            for o, c in bpairs.items():
                if btoks[o].start == bpos:
                    close = btoks[c].start
            new_head = "{ let verif_vec_%d = %s; let mut verif_next_%d: usize = 0;\n        while verif_next_%d < verif_vec_%d.len()\n        " % (k, src, k, k, k)
            body_intro = " let %s = verif_vec_%d[verif_next_%d]; verif_next_%d += 1;" % (var, k, k, k)
            b = b[:kwpos] + new_head + "{" + body_intro + b[bpos + 1:close + 1] + " }" + b[close + 1:]
            g.rewrites.append({"item": where, "rule": "R21", "loop": k, "old": header.strip(),
                               "new": (new_head + "{" + body_intro).strip(),
                               "why": "for over a Vec of Copy elements taken by value -> index/while loop copying each element"})
            continue
        mchars = re.match(r"^([A-Za-z_][A-Za-z0-9_.]*)\.chars\(\)$", rng)
        if split is None and mchars:
            # R28: `for c in STR.chars() { BODY }` => `{ let verif_vec_K = verif_chars(&STR); let mut verif_next_K: usize = 0;
            # while verif_next_K < verif_vec_K.len() { let c = verif_vec_K[verif_next_K]; verif_next_K += 1; BODY } }`
            # (verif_chars: assumed `r@ == STR@`, the characters in order; char is Copy)
            src = mchars.group(1)
            btoks = rustlex.lex(b)
            bpairs = rustlex.match_brackets(btoks)
            close = None
            for o, c in bpairs.items():
                if btoks[o].start == bpos:
                    close = btoks[c].start
            new_head = "{ let verif_vec_%d = verif_chars(&%s); let mut verif_next_%d: usize = 0;\n        while verif_next_%d < verif_vec_%d.len()\n        " % (k, src, k, k, k)
            body_intro = " let %s = verif_vec_%d[verif_next_%d]; verif_next_%d += 1;" % (var, k, k, k)
            b = b[:kwpos] + new_head + "{" + body_intro + b[bpos + 1:close + 1] + " }" + b[close + 1:]
            g.rewrites.append({"item": where, "rule": "R28", "loop": k, "old": header.strip(),
                               "new": (new_head + "{" + body_intro).strip(),
                               "why": "for over `str::chars()` (no Verus support for the Chars iterator) -> index/while loop over the character vector (assumed: the string's characters in order)"})
            continue
        if split is None and re.match(r"^&(mut\s+)?\*?[A-Za-z_][A-Za-z0-9_.]*$", rng):
            # R21: `for x in &mut VEC { BODY }` => `{ let mut verif_next_K: usize = 0; while verif_next_K < VEC.len()
            # { let x = &mut VEC[verif_next_K]; verif_next_K += 1; BODY } }`  (slice::IterMut visits the elements
            # in index order; BODY cannot mention VEC in the original, so its length is the same in every iteration)
            is_mut = rng.startswith("&mut")
            vec = rng[len("&mut "):].strip() if is_mut else rng[1:].strip()
            btoks = rustlex.lex(b)
            bpairs = rustlex.match_brackets(btoks)
            close = None
            for o, c in bpairs.items():
                if btoks[o].start == bpos:
                    close = btoks[c].start
            if is_mut:
                new_head = "{ let mut verif_next_%d: usize = 0;\n        while verif_next_%d < %s.len()\n        " % (k, k, vec)
                body_intro = " let %s = &mut %s[verif_next_%d]; verif_next_%d += 1;" % (var, vec, k, k)
            else:
                # the iterated vector gets a fixed name so that invariants do not depend on what the source calls it
                new_head = "{ let verif_vec_%d = &%s; let mut verif_next_%d: usize = 0;\n        while verif_next_%d < verif_vec_%d.len()\n        " % (k, vec, k, k, k)
                body_intro = " let %s = &verif_vec_%d[verif_next_%d]; verif_next_%d += 1;" % (var, k, k, k)
            b = b[:kwpos] + new_head + "{" + body_intro + b[bpos + 1:close + 1] + " }" + b[close + 1:]
            g.rewrites.append({"item": where, "rule": "R21", "loop": k, "old": header.strip(),
                               "new": (new_head + "{" + body_intro).strip(),
                               "why": "for over `&Vec` / `&mut Vec` whose body contains `continue` (unsupported in Verus for-loops) -> index/while desugaring of slice::Iter / IterMut"})
            continue
        mrev = re.match(r"^\((.*)\)\s*\.rev\(\)$", rng, re.S)
        if mrev and split is None:
            inner = mrev.group(1).strip()
            itoks = rustlex.lex(inner)
            ipairs = rustlex.match_brackets(itoks)
            i = 0
            isplit = None
            while i < len(itoks) - 1:
                if itoks[i].text in rustlex.OPEN:
                    i = ipairs[i]
                elif itoks[i].text == "." and itoks[i + 1].text == "." and itoks[i + 1].start == itoks[i].end:
                    isplit = (itoks[i].start, itoks[i + 1].end)
                    break
                i += 1
            if isplit is None or inner[isplit[1]:isplit[1] + 1] == "=":
                raise Undecided("%s: R15 loop #%d: not a reversed half-open integer range: %r" % (where, k, rng))
            lo, hi = inner[:isplit[0]].strip(), inner[isplit[1]:].strip()
            btoks = rustlex.lex(b)
            bpairs = rustlex.match_brackets(btoks)
            close = None
            for o, c in bpairs.items():
                if btoks[o].start == bpos:
                    close = btoks[c].start
            # R15 (reversed): `for x in (LO..HI).rev() { BODY }` => `{ let verif_lo_K = LO; let mut verif_next_K = HI;
            # while verif_next_K > verif_lo_K { verif_next_K -= 1; let x = verif_next_K; BODY } }` (both bounds are
            # evaluated once, before the first iteration, as in the original)
            new_head = "{ let verif_lo_%d = %s; let mut verif_next_%d = %s;\n        while verif_next_%d > verif_lo_%d\n        " % (k, lo, k, hi, k, k)
            body_intro = " verif_next_%d -= 1; let %s = verif_next_%d;" % (k, var, k)
            b = b[:kwpos] + new_head + "{" + body_intro + b[bpos + 1:close + 1] + " }" + b[close + 1:]
            g.rewrites.append({"item": where, "rule": "R15", "loop": k, "old": header.strip(),
                               "new": (new_head + "{" + body_intro).strip(),
                               "why": "for over a reversed integer range whose body contains `continue` -> the loop's own counter/while desugaring"})
            continue
        if split is None or rng[split[1]:split[1] + 1] == "=":
            raise Undecided("%s: R15 loop #%d: not a half-open integer range: %r" % (where, k, rng))
        lo, hi = rng[:split[0]].strip(), rng[split[1]:].strip()
        if lo.startswith("(") and lo.endswith(")"):
            pass
        btoks = rustlex.lex(b)
        bpairs = rustlex.match_brackets(btoks)
        close = None
        for o, c in bpairs.items():
            if btoks[o].start == bpos:
                close = btoks[c].start
        new_head = "{ let verif_hi_%d = %s; let mut verif_next_%d = %s;\n        while verif_next_%d < verif_hi_%d\n        " % (k, hi, k, lo, k, k)
        body_intro = " let %s = verif_next_%d; verif_next_%d += 1;" % (var, k, k)
        b = b[:kwpos] + new_head + "{" + body_intro + b[bpos + 1:close + 1] + " }" + b[close + 1:]
        g.rewrites.append({"item": where, "rule": "R15", "loop": k, "old": header.strip(),
                           "new": (new_head + "{" + body_intro).strip(),
                           "why": "for over an integer range whose body contains `continue` (unsupported in Verus for-loops) -> the loop's own counter/while desugaring"})
    return b


class Generated:
    def __init__(self):
        self.lines = []          # generated text lines
        self.regions = []        # (start_line, end_line, info dict)  1-based inclusive
        self.items = []          # extraction report
        self.rewrites = []
        self.functions = {}      # key -> info
        self.assumptions = []
        self.shape_changed = {}  # fn key -> notes (loop structure differs from the contract table)
        self.keyed_loops = {}    # fn key -> ordinals of loops that were matched by their header text
        self.raw_keys = set()    # keys of hand-written refinement checks

    def text(self):
        return "\n".join(self.lines) + "\n"


def clause_lines(kind, clauses, probe_labels):
    """returns list of (text_line, label or None)"""
    out = []
    if not clauses:
        return out
    out.append(("    " + kind, None))
    for c in clauses:
        txt = c.text
        if c.guard is not None and c.label not in probe_labels:
            txt = "(" + c.guard + ") ==> (" + txt + ")"
        if kind == "ensures" and "negate:this" in probe_labels:
            # must-fail twin (thorough tier): the negated clause has to be rejected, otherwise the
            # function's contract is vacuous (unsatisfiable precondition / no normal exit)
            txt = "!(" + txt + ")"
        tl = txt.split("\n")
        for n, l in enumerate(tl):
            suffix = "," if n == len(tl) - 1 else ""
            out.append(("        " + l + suffix, c.label))
    return out


def render_fn_contract(fn, probe_labels, with_guard_requires=True):
    lines = []
    req = list(fn.requires)
    if with_guard_requires:
        req += [c for c in fn.extra_guard_requires if c.label not in probe_labels]
    lines += [(t, ("requires", l) if l else None) for t, l in clause_lines("requires", req, probe_labels)]
    ens = [c for c in fn.ensures if not (getattr(c, "stub_only", False) and getattr(fn, "mode", "verify") == "verify")]
    lines += [(t, ("ensures", l) if l else None) for t, l in clause_lines("ensures", ens, probe_labels)]
    if fn.decreases:
        lines.append(("    decreases " + fn.decreases + ",", None))
    return lines


def render_loop_contract(loop, probe_labels):
    probe_labels = frozenset(probe_labels) - {"negate:this"}   # only function-level ensures are negated in a twin
    lines = []
    lines += [(t, ("invariant", l) if l else None) for t, l in
              clause_lines("invariant_except_break", loop.invariant_except_break, probe_labels)]
    lines += [(t, ("invariant", l) if l else None) for t, l in clause_lines("invariant", loop.invariant, probe_labels)]
    lines += [(t, ("loop_ensures", l) if l else None) for t, l in clause_lines("ensures", loop.ensures, probe_labels)]
    if loop.decreases:
        lines.append(("    decreases " + loop.decreases + ",", None))
    return lines


def lift_closure(text, name, captures, where, free=False, generics="", uncalled=False, ret_type=None):
    """R25 (closure conversion): `let mut NAME = |PARAMS| { BODY };` inside a function is removed, its calls
    `NAME(args)` become `Self::verif_closure_NAME(CAPTURE_ARGS, args)`, and the closure becomes the associated
    function `fn verif_closure_NAME(CAPTURE_PARAMS, PARAMS) { BODY }` (body verbatim). `captures` lists the
    captured variables as (name, parameter type, argument expression); a capture that is missing from the list
    makes the lifted function fail to compile. A closure return type (`|| -> T { .. }`) is carried over; `free`
    drops the `Self::` prefix (closure inside a free function) and `generics` repeats the parent's generic
    parameters on the lifted function. Returns (parent_text, lifted_text)."""
    m = re.search(r"let\s+(mut\s+)?%s\s*=\s*\|" % re.escape(name), text)
    if not m:
        raise Undecided("%s: R25 closure `%s` not found" % (where, name))
    p0 = m.end()
    p1 = text.find("|", p0)
    if p1 < 0:
        raise Undecided("%s: R25 closure `%s`: parameter list not closed" % (where, name))
    params = text[p0:p1]
    toks = rustlex.lex(text)
    pairs = rustlex.match_brackets(toks)
    bstart = None
    bend = None
    mret = re.match(r"\s*->\s*([^{]*?)\s*\{", text[p1 + 1:])
    ret_ty = mret.group(1) if mret else ret_type   # a closure without `-> T` gets the unit's type (checked by rustc)
    scan_from = p1 + 1 + (mret.end() - 1 if mret else 0)
    for i, t in enumerate(toks):
        if t.start >= scan_from and t.text == "{":
            bstart = t.start
            bend = toks[pairs[i]].end
            break
        if t.start >= scan_from and t.kind != "ws" and t.text != "{" and t.text.strip():
            break
    if bstart is None:
        raise Undecided("%s: R25 closure `%s`: body is not a block" % (where, name))
    rest = text[bend:]
    msemi = re.match(r"\s*;", rest)
    if not msemi:
        raise Undecided("%s: R25 closure `%s`: statement does not end after the block" % (where, name))
    stmt_end = bend + msemi.end()
    body = text[bstart:bend]
    parent = text[:m.start()] + "// (closure `%s` lifted: R25)" % name + text[stmt_end:]
    cap_args = ", ".join(c[2] for c in captures)
    prefix = "" if free else "Self::"
    parent, n = re.subn(r"\b%s\(" % re.escape(name), "%sverif_closure_%s(%s, " % (prefix, name, cap_args), parent)
    if n == 0 and not uncalled:
        raise Undecided("%s: R25 closure `%s` is never called" % (where, name))
    cap_params = ", ".join("%s: %s" % (c[0], c[1]) for c in captures)
    lifted = "fn verif_closure_%s%s(%s, %s)%s\n%s\n" % (name, generics, cap_params, params.strip().rstrip(","),
                                                        (" -> " + ret_ty) if ret_ty else "", body)
    return parent, lifted


def lift_inline_closure(text, ordinal, name, params, captures, where):
    """R25 (inline form): the ORDINAL-th closure of the function, written inline as an argument (`&mut |a, b| { BODY }`),
    becomes the function `fn verif_closure_NAME(CAPTURE_PARAMS, PARAMS) { BODY }` (body verbatim). The closure's
    untyped parameter list must be the names of `params` in order (checked); the parameter types and the captured
    variables are listed in the unit. Only the lifted function is emitted; the enclosing function is not."""
    sig, body = rustlex.fn_parts(text)
    spans = closure_spans(body)
    if ordinal > len(spans):
        raise Undecided("%s: R25 closure #%d not found" % (where, ordinal))
    ps, pe, bs, be, is_block = spans[ordinal - 1]
    if not is_block:
        raise Undecided("%s: R25 closure #%d: body is not a block" % (where, ordinal))
    got = [x.strip() for x in body[ps + 1:pe - 1].split(",") if x.strip()]
    want = [x.split(":")[0].strip() for x in params]
    if got != want:
        raise Undecided("%s: R25 closure #%d: parameters %r differ from the unit's %r" % (where, ordinal, got, want))
    cap_params = ", ".join("%s: %s" % (c[0], c[1]) for c in captures)
    allp = ", ".join([x for x in [cap_params] + list(params) if x])
    return "fn verif_closure_%s(%s)\n%s\n" % (name, allp, body[bs:be])


def extract_fn_text(fn):
    sf = source(fn.file)
    it = sf.find("fn", fn.name, impl=fn.impl, occurrence=fn.occurrence)
    if it is None:
        raise Undecided("item not found: fn %s (impl %s) in %s" % (fn.name, fn.impl, fn.file))
    text = sf.text[it.start:it.end]
    lift = getattr(fn, "lift", None)
    if lift and "ordinal" in lift:
        text = lift_inline_closure(text, lift["ordinal"], lift["closure"], lift["params"], lift["captures"], "%s::%s" % (fn.file, fn.key))
        return sf, it, text
    if lift:
        parent, lifted = lift_closure(text, lift["closure"], lift["captures"], "%s::%s" % (fn.file, fn.key),
                                      free=lift.get("free", False), generics=lift.get("generics", ""), uncalled=lift.get("uncalled", False), ret_type=lift.get("ret_type"))
        text = parent if lift["part"] == "parent" else lifted
    return sf, it, text


def gen_fn(fn, g, probe_labels, unit_name):
    sf, it, text = extract_fn_text(fn)
    where = "%s::%s" % (fn.file, fn.key)
    sha = hashlib.sha256(text.encode()).hexdigest()
    line0 = sf.line_of(it.start)
    line1 = sf.line_of(it.end)
    sig, body = rustlex.fn_parts(text)
    if body is None:
        raise Undecided("%s: function without body" % where)
    # drop attributes / doc comments in front of the fn? keep them (they are comments or cfgs)
    sig = apply_rewrites(sig, fn.sig_rewrites, g.rewrites, where)
    # R2: visibility
    sig_new = re.sub(r"^(\s*)(pub(\([^)]*\))?\s+)?fn\b", r"\1pub fn", sig, count=1, flags=re.M) \
        if fn.impl is None or " for " not in fn.impl else sig
    if fn.ret:
        sig_new = name_return(sig_new, fn.ret, where)
    if fn.impl and " for " in fn.impl and fn.impl_header and " for " not in fn.impl_header:
        g.rewrites.append({"item": where, "rule": "R38", "old": "impl " + fn.impl, "new": "impl " + fn.impl_header,
                           "why": "a trait-impl method is checked as an inherent method of the implementing type (Verus allows no `requires` on trait impls); signature and body unchanged, dynamic dispatch not modelled"})
    out = []   # list of (line, region-info or None)
    for a in fn.attrs:
        out.append((a, None))
    if fn.mode == "stub":
        out.append(("#[verifier::external_body]", None))
    for l in sig_new.rstrip().split("\n"):
        out.append((l, {"kind": "sig"}))
    for t, lab in render_fn_contract(fn, probe_labels):
        out.append((t, {"kind": lab[0], "label": lab[1]} if lab else None))
    if fn.mode == "stub":
        out.append(("{ unimplemented!() }", None))
    else:
        b = body
        b = apply_rewrites(b, fn.rewrites, g.rewrites, where)
        if getattr(fn, "closures", None):
            b = annotate_closures(b, fn.closures, g, where)
        if getattr(fn, "unroll", None):
            b = unroll_array_loops(b, fn.unroll, g, where)
        if getattr(fn, "for_to_while", None):
            b = desugar_for_ranges(b, fn.for_to_while, g, where)
        # loops: insert contracts before the body brace of the k-th loop (ordinals w.r.t. the
        # original body text after literal rewrites, before ghost inserts)
        if fn.loops:
            offs = rustlex.loop_body_offsets(b)
            # loops may be keyed by ordinal (int) or by a text fragment of their header (str); a keyed loop that
            # is not found is reported as a shape change and its contract is dropped
            resolved = {}
            for key, lp in fn.loops.items():
                if isinstance(key, int):
                    resolved[key] = lp
                    continue
                found = None
                for idx, (kw, kwpos, bpos) in enumerate(offs, start=1):
                    if key in b[kwpos:bpos] and idx not in resolved:
                        found = idx
                        break
                if found is None:
                    g.shape_changed.setdefault(fn.key, []).append("no loop whose header contains %r" % key)
                else:
                    resolved[found] = lp
                    g.keyed_loops.setdefault(fn.key, set()).add(found)
            fn = _with_loops(fn, resolved)
            for k in sorted(fn.loops):
                if k > len(offs):
                    # the loop structure of the function changed: the contracts of the missing
                    # loops are dropped (recorded); the verifier decides on what is left
                    g.shape_changed.setdefault(fn.key, []).append(
                        "loop #%d has a contract but the function has %d loops" % (k, len(offs)))
            # structural inserts (body start / end) first, from the last loop to the first so offsets stay valid
            btoks = rustlex.lex(b)
            bpairs = rustlex.match_brackets(btoks)
            close_of = {}
            for o, c in bpairs.items():
                close_of[btoks[o].start] = btoks[c].start
            edits = []
            for idx, (kw, kwpos, bpos) in enumerate(offs, start=1):
                if idx in fn.loops:
                    lp = fn.loops[idx]
                    edits.append((bpos, "\n/*@@LOOP %d@@*/\n" % idx, "before"))
                    if getattr(lp, "before", None):
                        edits.append((kwpos, lp.before + "\n", "before"))
                        g.rewrites.append({"item": where, "rule": "R12", "loop": idx, "where": "before loop", "inserted": lp.before, "why": "ghost/proof text"})
                    if lp.body_start:
                        edits.append((bpos + 1, "\n" + lp.body_start + "\n", "before"))
                        g.rewrites.append({"item": where, "rule": "R12", "loop": idx, "where": "body start", "inserted": lp.body_start, "why": "ghost/proof text"})
                    if lp.body_end:
                        edits.append((close_of[bpos], "\n" + lp.body_end + "\n", "before"))
                        g.rewrites.append({"item": where, "rule": "R12", "loop": idx, "where": "body end", "inserted": lp.body_end, "why": "ghost/proof text"})
            for pos, text, _ in sorted(edits, key=lambda e: -e[0]):
                b = b[:pos] + text + b[pos:]
        b = apply_inserts(b, fn.inserts, g.rewrites, where, probe_labels)
        for l in b.split("\n"):
            m = re.match(r"/\*@@LOOP (\d+)@@\*/", l.strip())
            if m:
                k = int(m.group(1))
                for t, lab in render_loop_contract(fn.loops[k], probe_labels):
                    out.append((t, {"kind": lab[0], "label": "loop%d.%s" % (k, lab[1])} if lab else None))
            else:
                out.append((l, {"kind": "body"}))
    info = {
        "key": fn.key, "unit": unit_name, "file": fn.file, "lines": [line0, line1], "sha256": sha,
        "mode": fn.mode, "props": fn.props, "name": getattr(fn, "gen_name", None) or fn.name, "impl": fn.impl,
        "orig_text": text,
    }
    return out, info


def gen_type(ty, g):
    sf = source(ty.file)
    it = sf.find(ty.kind, ty.name, occurrence=ty.occurrence)
    if it is None:
        raise Undecided("item not found: %s %s in %s" % (ty.kind, ty.name, ty.file))
    text = sf.text[it.start:it.end]
    where = "%s::%s" % (ty.file, ty.name)
    sha = hashlib.sha256(text.encode()).hexdigest()
    new = text
    # R1 derives
    m = DERIVE_RE.search(new)
    if m and ty.derive != "keep":
        rep = "" if ty.derive == "drop" else "#[derive(%s)]\n" % ty.derive
        g.rewrites.append({"item": where, "rule": "R1", "old": m.group(0).strip(), "new": rep.strip(),
                           "why": "derive list reduced for the verifier"})
        new = new[:m.start()] + rep + new[m.end():]
    elif not m and ty.derive not in ("keep", "drop"):
        new = "#[derive(%s)]\n" % ty.derive + new
    # R2 visibility
    new2 = re.sub(r"^(\s*)(pub(\([^)]*\))?\s+)?(struct|enum|const|static|type)\b", r"\1pub \4", new, count=1, flags=re.M)
    if ty.kind == "struct":
        new2 = make_pub_fields(new2)
    if new2 != new:
        g.rewrites.append({"item": where, "rule": "R2", "why": "visibility widened to pub (no runtime meaning)"})
    new = apply_rewrites(new2, ty.rewrites, g.rewrites, where)
    new = apply_inserts(new, ty.inserts, g.rewrites, where)
    out = [(a, None) for a in ty.attrs]
    for a in ty.attrs:
        g.rewrites.append({"item": where, "rule": "R1", "new": a, "why": "verifier attribute added"})
    out += [(l, {"kind": "type"}) for l in new.split("\n")]
    info = {"key": ty.key, "file": ty.file, "lines": [sf.line_of(it.start), sf.line_of(it.end)], "sha256": sha,
            "mode": "type", "name": ty.name}
    return out, info


def gen_impl(im, g, probe_labels, unit_name):
    sf = source(im.file)
    blk = sf.find_impl(im.header, im.occurrence)
    if blk is None:
        raise Undecided("item not found: impl %s in %s" % (im.header, im.file))
    text = sf.text[blk.start:blk.end]
    where = "%s::impl %s" % (im.file, im.header)
    sha = hashlib.sha256(text.encode()).hexdigest()
    inner = rustlex.items_in(sf.text, sf.toks, sf.pairs, blk.toks_range[0], blk.toks_range[1])
    # rebuild: header + each inner item (fns get contracts)
    out = []
    head = sf.text[blk.start:blk.body_open]
    out += [(l, {"kind": "sig"}) for l in head.rstrip().split("\n")]
    out.append(("{", None))
    infos = []
    for it in inner:
        itext = sf.text[it.start:it.end]
        if it.kind == "fn" and it.name in im.fns:
            fn = im.fns[it.name]
            sig, body = rustlex.fn_parts(itext)
            sig = apply_rewrites(sig, fn.sig_rewrites, g.rewrites, where + "::" + it.name)
            if fn.ret:
                sig = name_return(sig, fn.ret, where)
            if im.mode == "stub":
                out.append(("#[verifier::external_body]", None))
            for l in sig.rstrip().split("\n"):
                out.append((l, {"kind": "sig"}))
            for t, lab in render_fn_contract(fn, probe_labels):
                out.append((t, {"kind": lab[0], "label": lab[1], "fnkey": fn.key} if lab else None))
            if im.mode == "stub":
                out.append(("{ unimplemented!() }", None))
            else:
                b = apply_rewrites(body, fn.rewrites + im.rewrites, g.rewrites, where + "::" + it.name)
                b = apply_inserts(b, fn.inserts, g.rewrites, where + "::" + it.name, probe_labels)
                out += [(l, {"kind": "body", "fnkey": fn.key}) for l in b.split("\n")]
            infos.append({"key": fn.key, "unit": unit_name, "file": im.file,
                          "lines": [sf.line_of(it.start), sf.line_of(it.end)],
                          "sha256": hashlib.sha256(itext.encode()).hexdigest(), "mode": im.mode,
                          "props": fn.props or im.props, "name": it.name, "impl": im.header, "orig_text": itext})
        else:
            t2 = apply_rewrites(itext, [], g.rewrites, where) if False else itext
            out += [(l, {"kind": "body"}) for l in t2.split("\n")]
    out.append(("}", None))
    info = {"key": im.key, "file": im.file, "lines": [sf.line_of(blk.start), sf.line_of(blk.end)], "sha256": sha,
            "mode": "impl", "name": im.header}
    return out, info, infos


INCLUDE_RE = re.compile(r"^\s*//@@INCLUDE\s+(\S+)\s*$")
ITEMS_RE = re.compile(r"^\s*//@@ITEMS\s+(\S+)\s*$")


def read_skeleton(path, depth=0):
    if depth > 5:
        raise Undecided("include depth")
    with open(os.path.join(UNITS_DIR, path), encoding="utf-8") as f:
        lines = f.read().split("\n")
    out = []
    for l in lines:
        m = INCLUDE_RE.match(l)
        if m:
            out += read_skeleton(m.group(1), depth + 1)
        else:
            out.append(l)
    return out


def generate(unit, probe_labels=frozenset()):
    """returns Generated; probe_labels: set of clause labels emitted unguarded (known-finding probes)"""
    g = Generated()
    skel = read_skeleton(unit.skeleton)
    if getattr(unit, "carry_facts_into_loops", True):
        # crate-level `loop_isolation(false)`: facts about variables a loop does not modify stay available inside it,
        # so an edit that routes a value through a new immutable local does not orphan the loop's proof
        for k, l in enumerate(skel):
            if l.startswith("#![allow("):
                skel.insert(k, "#![verifier::loop_isolation(false)]")
                break
    by_slot = {}
    for it in unit.items:
        by_slot.setdefault(it.slot, []).append(it)
    used = set()
    for l in skel:
        m = ITEMS_RE.match(l)
        if not m:
            g.lines.append(l)
            continue
        slot = m.group(1)
        used.add(slot)
        for it in by_slot.get(slot, []):
            if isinstance(it, Raw):
                out = [(l, {"kind": "raw"}) for l in it.text.split("\n")]
                info = {"key": it.key, "file": "(contract table)", "lines": [0, 0], "sha256": hashlib.sha256(it.text.encode()).hexdigest(), "mode": "raw", "name": it.key}
                infos = []
                g.raw_keys.add(it.key)
            elif isinstance(it, Type):
                out, info = gen_type(it, g)
                infos = []
            elif isinstance(it, Impl):
                out, info, infos = gen_impl(it, g, probe_labels, unit.name)
            else:
                out, info = gen_fn(it, g, probe_labels - {"negate:ensures"}, unit.name)
                infos = [info]
                hdr = it.impl_header or it.impl
                if hdr:
                    out = [("impl " + hdr + " {", None)] + out + [("}", None)]
                if "negate:ensures" in probe_labels and it.mode == "verify" and [c for c in it.ensures if not getattr(c, "stub_only", False)]:
                    # must-fail twin: a renamed copy of the function whose ensures clauses are negated
                    # (callers keep seeing the real contract of the original)
                    g2 = Generated()
                    tw_out, tw_info = gen_fn(it, g2, (probe_labels - {"negate:ensures"}) | {"negate:this"}, unit.name)
                    renamed = []
                    done = False
                    nm = getattr(it, "gen_name", None) or it.name
                    for (t, reg) in tw_out:
                        if not done and reg is not None and reg.get("kind") == "sig" and re.search(r"\bfn\s+" + re.escape(nm) + r"\b", t):
                            t = re.sub(r"\bfn\s+" + re.escape(nm) + r"\b", "fn " + nm + "__twin", t, count=1)
                            done = True
                        r2 = dict(reg) if reg is not None else None
                        if r2 is not None:
                            r2["fnkey"] = it.key + "__twin"
                        renamed.append((t, r2))
                    if hdr:
                        renamed = [("impl " + hdr + " {", None)] + renamed + [("}", None)]
                    out = out + [("", None)] + renamed
            start = len(g.lines) + 1
            for (t, reg) in out:
                g.lines.append(t)
                if reg is not None:
                    r = dict(reg)
                    r["item"] = r.get("fnkey") or info["key"]
                    g.regions.append((len(g.lines), r))
            end = len(g.lines)
            info["gen_lines"] = [start, end]
            g.items.append({k: v for k, v in info.items() if k != "orig_text"})
            for fi in infos:
                fi = dict(fi)
                fi["gen_lines"] = [start, end]
                g.functions[fi["key"]] = fi
            g.lines.append("")
    missing = set(by_slot) - used
    if missing:
        raise Undecided("unit %s: slots %s have no marker in skeleton" % (unit.name, sorted(missing)))
    return g
