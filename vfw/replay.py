"""./check --replay <path>: show a replay record; for records with a concrete input, run it on the real binary."""
import json
import os
import subprocess
import sys

ROOT = os.path.dirname(os.path.dirname(os.path.abspath(__file__)))
REPO = os.environ.get("VERIF_REPO", "/repo")


def build_binary():
    tdir = os.environ.get("VERIF_TARGET_DIR", os.path.join(REPO, "target"))
    p = subprocess.run(["cargo", "build", "--offline", "--quiet", "--bin", "customasm"], cwd=REPO,
                       env=dict(os.environ, CARGO_TARGET_DIR=tdir, CARGO_NET_OFFLINE="true"))
    if p.returncode != 0:
        return None
    return os.path.join(tdir, "debug", "customasm")


def run_asm(binary, asm_path, args=("-f", "hexstr", "-p")):
    p = subprocess.run([binary, asm_path] + list(args), stdout=subprocess.PIPE, stderr=subprocess.STDOUT, text=True,
                       errors="replace", timeout=60)
    return p.returncode, p.stdout


def replay(path):
    if path.endswith(".asm"):
        b = build_binary()
        if not b:
            print("cannot build /repo")
            return 2
        rc, out = run_asm(b, path)
        print(out)
        print("exit status:", rc)
        return 0
    with open(path) as f:
        rec = json.load(f)
    print("property   :", rec.get("property"))
    print("obligation :", rec.get("obligation"))
    print("location   :", rec.get("repo_location"))
    print("message    :", rec.get("verifier_message"))
    print(rec.get("verifier_output") or "")
    ce = rec.get("counterexample")
    if ce and ce.get("asm"):
        b = build_binary()
        if not b:
            print("cannot build /repo")
            return 2
        asm = os.path.join(ROOT, ce["asm"])
        rc, out = run_asm(b, asm, ce.get("args", ["-f", "hexstr", "-p"]))
        print(out)
        print("exit status:", rc, "(expected misbehaviour: %s)" % ce.get("expect"))
    else:
        print("no concrete failing input (Verus produces no model): no-failing-input-found")
        print("to re-verify: ", rec.get("regenerate_cmd"))
    return 0
