"""Bounded Kani cross-checks (thorough tier only): the real BigInt::min_size/sign/get_bit and num-bigint's
conversions/comparisons against primitive-integer arithmetic, on a scratch copy of /repo."""
import os
import re
import shutil
import subprocess
import tempfile
import time

ROOT = os.path.dirname(os.path.dirname(os.path.abspath(__file__)))
REPO = os.environ.get("VERIF_REPO", "/repo")

HARNESSES = [
    # (harness, domain, properties, what a failure means)
    ("check_min_size_sign_i32", "all i32 values", ["C04", "C05"], "real util::BigInt::min_size / sign differ from the arithmetic definition"),
    ("check_get_bit_i16", "all i16 values x bit index < 24", ["C01", "C05", "C11"], "real util::BigInt::get_bit (num-bigint `bit`) is not the two's-complement bit"),
    ("check_nb_tryfrom_cmp_i32", "all pairs of i32 values", ["C19", "C05"], "num-bigint TryFrom<&BigInt> for usize/u32 or comparisons differ from the assumed contracts"),
]


def run(props, timeout_each=900):
    """returns list of result dicts; never raises"""
    wanted = [h for h in HARNESSES if set(h[2]) & set(props)]
    if not wanted:
        return []
    if shutil.which("cargo") is None:
        return [{"harness": h[0], "result": "not run (cargo missing)"} for h in wanted]
    tmp = tempfile.mkdtemp(prefix="verif_kani_")
    res = []
    try:
        dst = os.path.join(tmp, "repo")
        shutil.copytree(REPO, dst, ignore=shutil.ignore_patterns("target", ".git"))
        shutil.copy(os.path.join(ROOT, "kani", "verif_kani.rs"), os.path.join(dst, "src", "util", "verif_kani.rs"))
        with open(os.path.join(dst, "src", "util", "mod.rs"), "a") as f:
            f.write("\n#[cfg(kani)] mod verif_kani;\n")
        env = dict(os.environ, CARGO_NET_OFFLINE="true", CARGO_TARGET_DIR=os.path.join(tmp, "target"))
        for (h, domain, ps, meaning) in wanted:
            t0 = time.time()
            try:
                p = subprocess.run(["cargo", "kani", "-Z", "stubbing", "--harness", h], cwd=dst, env=env,
                                   stdout=subprocess.PIPE, stderr=subprocess.STDOUT, text=True, timeout=timeout_each)
                out = p.stdout
                if "VERIFICATION:- SUCCESSFUL" in out:
                    r = "success"
                elif "VERIFICATION:- FAILED" in out:
                    r = "FAILED"
                else:
                    r = "no verdict (rc=%d)" % p.returncode
                tail = "\n".join(out.strip().split("\n")[-12:])
            except subprocess.TimeoutExpired:
                r = "not checked (time limit %ds)" % timeout_each
                tail = ""
            res.append({"harness": h, "back_end": "Kani 0.68 / CBMC", "bounded": True, "domain": domain, "result": r,
                        "seconds": round(time.time() - t0, 1), "failure_would_mean": meaning, "output_tail": tail if r != "success" else ""})
    except Exception as e:  # infrastructure problem: report, do not alarm
        res.append({"harness": "(setup)", "result": "not run: %s" % e})
    finally:
        shutil.rmtree(tmp, ignore_errors=True)
    return res
