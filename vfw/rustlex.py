"""Minimal Rust lexer + item locator used by the mechanical extraction.

It does not parse Rust; it only needs to be right about what is code and what is
comment / string / char literal, and about bracket nesting, so that items (fn, struct,
enum, const, impl blocks) can be cut out of a source file as exact text.
"""
import re

IDENT_START = set("abcdefghijklmnopqrstuvwxyzABCDEFGHIJKLMNOPQRSTUVWXYZ_")
IDENT_CONT = IDENT_START | set("0123456789")


class LexError(Exception):
    pass


class Tok:
    __slots__ = ("kind", "text", "start", "end")

    def __init__(self, kind, text, start, end):
        self.kind = kind      # 'id', 'punct', 'str', 'char', 'num', 'lifetime', 'comment'
        self.text = text
        self.start = start
        self.end = end

    def __repr__(self):
        return "Tok(%s,%r,%d)" % (self.kind, self.text, self.start)


def lex(src, keep_comments=False):
    toks = []
    i = 0
    n = len(src)
    while i < n:
        c = src[i]
        if c in " \t\r\n":
            i += 1
            continue
        if src.startswith("//", i):
            j = src.find("\n", i)
            if j < 0:
                j = n
            if keep_comments:
                toks.append(Tok("comment", src[i:j], i, j))
            i = j
            continue
        if src.startswith("/*", i):
            depth = 1
            j = i + 2
            while j < n and depth > 0:
                if src.startswith("/*", j):
                    depth += 1
                    j += 2
                elif src.startswith("*/", j):
                    depth -= 1
                    j += 2
                else:
                    j += 1
            if depth != 0:
                raise LexError("unterminated block comment at %d" % i)
            if keep_comments:
                toks.append(Tok("comment", src[i:j], i, j))
            i = j
            continue
        # raw strings  r"..."  r#"..."#  br"..."
        m = re.compile(r'b?r(#*)"').match(src, i)
        if m:
            hashes = m.group(1)
            close = '"' + hashes
            j = src.find(close, m.end())
            if j < 0:
                raise LexError("unterminated raw string at %d" % i)
            j += len(close)
            toks.append(Tok("str", src[i:j], i, j))
            i = j
            continue
        if c == '"' or (c == 'b' and i + 1 < n and src[i + 1] == '"'):
            j = i + (2 if c == 'b' else 1)
            while j < n and src[j] != '"':
                if src[j] == '\\':
                    j += 2
                else:
                    j += 1
            if j >= n:
                raise LexError("unterminated string at %d" % i)
            j += 1
            toks.append(Tok("str", src[i:j], i, j))
            i = j
            continue
        if c == "'" or (c == 'b' and i + 1 < n and src[i + 1] == "'"):
            k = i + (1 if c == 'b' else 0)
            # char literal or lifetime
            # char literal: '\x..' or 'c' (any single char followed by ')
            if k + 1 < n and src[k + 1] == '\\':
                j = k + 2
                while j < n and src[j] != "'":
                    j += 1
                j += 1
                toks.append(Tok("char", src[i:j], i, j))
                i = j
                continue
            if k + 2 < n and src[k + 2] == "'":
                j = k + 3
                toks.append(Tok("char", src[i:j], i, j))
                i = j
                continue
            # lifetime
            j = k + 1
            while j < n and src[j] in IDENT_CONT:
                j += 1
            toks.append(Tok("lifetime", src[i:j], i, j))
            i = j
            continue
        if c in IDENT_START:
            j = i + 1
            while j < n and src[j] in IDENT_CONT:
                j += 1
            toks.append(Tok("id", src[i:j], i, j))
            i = j
            continue
        if c.isdigit():
            j = i + 1
            while j < n and (src[j] in IDENT_CONT or (src[j] == '.' and j + 1 < n and src[j + 1].isdigit())):
                j += 1
            toks.append(Tok("num", src[i:j], i, j))
            i = j
            continue
        toks.append(Tok("punct", c, i, i + 1))
        i += 1
    return toks


OPEN = {"(": ")", "[": "]", "{": "}"}
CLOSE = {")": "(", "]": "[", "}": "{"}


def match_brackets(toks):
    """returns dict open_index -> close_index (token indices)"""
    stack = []
    pairs = {}
    for idx, t in enumerate(toks):
        if t.kind != "punct":
            continue
        if t.text in OPEN:
            stack.append(idx)
        elif t.text in CLOSE:
            if not stack:
                raise LexError("unbalanced %s at %d" % (t.text, t.start))
            o = stack.pop()
            if OPEN[toks[o].text] != t.text:
                raise LexError("mismatched bracket at %d" % t.start)
            pairs[o] = idx
    if stack:
        raise LexError("unclosed bracket at %d" % toks[stack[-1]].start)
    return pairs


ITEM_KW = {"fn", "struct", "enum", "const", "static", "type", "impl", "mod", "use", "trait", "macro_rules"}


def norm_ws(s):
    return re.sub(r"\s+", " ", s).strip()


class Item:
    def __init__(self, kind, name, start, end, header, body_open, body_close, toks_range):
        self.kind = kind            # fn/struct/enum/const/static/type/impl/mod/use/trait
        self.name = name
        self.start = start          # byte offsets into src (start includes attributes)
        self.end = end
        self.header = header        # normalised header text (for impl: text after 'impl' up to '{')
        self.body_open = body_open  # byte offset of '{' (or None)
        self.body_close = body_close
        self.toks_range = toks_range


def items_in(src, toks, pairs, lo, hi):
    """enumerate items among tokens[lo:hi] (all at the same nesting level)"""
    res = []
    i = lo
    while i < hi:
        start_i = i
        # attributes
        while i < hi and toks[i].text == "#":
            j = i + 1
            if j < hi and toks[j].text == "!":
                j += 1
            if j < hi and toks[j].text == "[":
                i = pairs[j] + 1
            else:
                break
        # visibility / qualifiers
        j = i
        while j < hi:
            t = toks[j]
            if t.kind == "id" and t.text in ("pub", "unsafe", "async", "extern", "default"):
                j += 1
                if j < hi and toks[j].text == "(" and toks[j - 1].text == "pub":
                    j = pairs[j] + 1
                if j < hi and toks[j].kind == "str":
                    j += 1
                continue
            if t.kind == "id" and t.text == "const" and j + 1 < hi and toks[j + 1].text in ("fn", "unsafe"):
                j += 1
                continue
            break
        if j >= hi:
            break
        t = toks[j]
        if t.kind != "id" or t.text not in ITEM_KW:
            # not an item (stray token such as ';'); skip
            i = j + 1
            continue
        kind = t.text
        name = None
        k = j + 1
        if kind == "impl":
            # header up to '{'
            while k < hi and toks[k].text != "{":
                if toks[k].text in OPEN:
                    k = pairs[k]
                k += 1
            header = norm_ws(src[toks[j + 1].start:toks[k].start]) if k > j + 1 else ""
            close = pairs[k]
            res.append(Item("impl", header, toks[start_i].start, toks[close].end, header,
                            toks[k].start, toks[close].start, (k + 1, close)))
            i = close + 1
            continue
        if kind == "macro_rules":
            # macro_rules! name { ... }
            mname = None
            while k < hi and toks[k].text not in OPEN:
                if toks[k].kind == "id" and mname is None:
                    mname = toks[k].text
                k += 1
            close = pairs[k]
            i = close + 1
            if i < hi and toks[i].text == ";":
                i += 1
            res.append(Item("macro_rules", mname, toks[start_i].start, toks[i - 1].end, "", toks[k].start, toks[close].start, (k + 1, close)))
            continue
        if k < hi and toks[k].kind == "id":
            name = toks[k].text
        # find end: first '{' at depth 0 (then its close) or ';'
        body_open = body_close = None
        rng = None
        while k < hi:
            tt = toks[k].text
            if tt == ";":
                break
            if tt == "{":
                body_open = toks[k].start
                close = pairs[k]
                body_close = toks[close].start
                rng = (k + 1, close)
                k = close
                break
            if tt in OPEN:
                k = pairs[k]
            k += 1
        if kind in ("struct",) and body_open is None:
            pass
        # tuple struct `struct X(..);` ends with ';' handled by loop
        end_tok = k
        header = norm_ws(src[toks[j].start:(body_open if body_open is not None else toks[end_tok].start)])
        res.append(Item(kind, name, toks[start_i].start, toks[end_tok].end, header,
                        body_open, body_close, rng))
        i = end_tok + 1
    return res


class SourceFile:
    def __init__(self, path, text):
        self.path = path
        self.text = text
        self.toks = lex(text)
        self.pairs = match_brackets(self.toks)
        self.top = items_in(text, self.toks, self.pairs, 0, len(self.toks))

    def line_of(self, off):
        return self.text.count("\n", 0, off) + 1

    def find(self, kind, name, impl=None, occurrence=1):
        """locate an item; impl = normalised impl header (text after `impl`)"""
        cands = []
        if impl is None:
            scope = self.top
            for it in scope:
                if it.kind == kind and it.name == name:
                    cands.append(it)
        else:
            want = norm_ws(impl)
            for blk in self.top:
                if blk.kind == "impl" and blk.header == want:
                    inner = items_in(self.text, self.toks, self.pairs, blk.toks_range[0], blk.toks_range[1])
                    for it in inner:
                        if it.kind == kind and it.name == name:
                            cands.append(it)
        if len(cands) < occurrence:
            return None
        return cands[occurrence - 1]

    def find_impl(self, impl, occurrence=1):
        want = norm_ws(impl)
        c = [b for b in self.top if b.kind == "impl" and b.header == want]
        if len(c) < occurrence:
            return None
        return c[occurrence - 1]


def fn_parts(text):
    """split a fn item text into (prefix_with_signature, body_with_braces).
    The body is the first '{' at bracket depth 0 after the `fn` keyword."""
    toks = lex(text)
    pairs = match_brackets(toks)
    k = 0
    while k < len(toks) and not (toks[k].kind == "id" and toks[k].text == "fn"):
        if toks[k].text in OPEN:
            k = pairs[k]
        k += 1
    while k < len(toks):
        tt = toks[k].text
        if tt == "{":
            return text[:toks[k].start], text[toks[k].start:toks[pairs[k]].end]
        if tt == ";":
            return text[:toks[k].start], None
        if tt in OPEN:
            k = pairs[k]
        k += 1
    return text, None


def loop_body_offsets(body):
    """offsets (into body text) of the '{' opening the body of each loop, in source order"""
    toks = lex(body)
    pairs = match_brackets(toks)
    res = []
    for idx, t in enumerate(toks):
        if t.kind == "id" and t.text in ("for", "while", "loop"):
            # `for` in `for<'a>` (HRTB) is followed by '<'
            if t.text == "for" and idx + 1 < len(toks) and toks[idx + 1].text == "<":
                continue
            # impl X for Y cannot appear in a body
            k = idx + 1
            while k < len(toks):
                tt = toks[k].text
                if tt == "{":
                    res.append((t.text, t.start, toks[k].start))
                    break
                if tt in OPEN:
                    k = pairs[k]
                k += 1
    return res
