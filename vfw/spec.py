"""Data model for units: which real items are extracted and which contract text is attached.

A contract clause is (label, expression-text, [property ids]).  Labels are the stable part of
obligation IDs.  Nothing in here is executable Rust; the executable text always comes from
/repo via vfw.extract.
"""


class Clause:
    def __init__(self, label, text, props=(), guard=None, finding=None, stub_only=False):
        # stub_only: the clause names a ghost event by definition; it is emitted only where the
        # function appears as a stub (callers rely on it), not where the function body is verified
        self.stub_only = stub_only
        self.label = label
        self.text = text.strip()
        self.props = list(props)
        # known-finding support: the clause is emitted as `guard ==> (text)` in the main file
        # and unguarded in the probe file (where it is expected to fail).
        self.guard = guard
        self.finding = finding


def C(label, text, props=(), guard=None, finding=None, stub_only=False):
    return Clause(label, text, props, guard, finding, stub_only)


class Loop:
    def __init__(self, invariant=(), decreases=None, ensures=(), invariant_except_break=(), body_start=None, body_end=None, before=None):
        self.before = before        # ghost text placed right before the loop statement
        # ghost text placed right after the loop body's `{` / right before its `}` (structural anchors,
        # independent of the statements inside the body)
        self.body_start = body_start
        self.body_end = body_end
        self.invariant = list(invariant)
        self.invariant_except_break = list(invariant_except_break)
        self.ensures = list(ensures)
        self.decreases = decreases


class Rewrite:
    """literal text substitution inside the extracted item; `count` occurrences must exist."""

    def __init__(self, old, new, count=1, rule="R?", why="", regex=False):
        self.regex = regex
        self.old = old
        self.new = new
        self.count = count
        self.rule = rule
        self.why = why


class Insert:
    """insert ghost text before/after the occ-th occurrence of a literal anchor"""

    def __init__(self, anchor, text, where="before", occ=1, rule="R12", why="ghost/proof text", finding=None):
        # finding: this insert is the guard (an `assume`) of a known finding; it is omitted in the
        # probe run of that finding (probe label "guard:<finding>")
        self.finding = finding
        self.anchor = anchor
        self.text = text
        self.where = where
        self.occ = occ
        self.rule = rule
        self.why = why


class Fn:
    def __init__(self, file, name, impl=None, occurrence=1, slot=None, mode="verify", ret=None,
                 requires=(), ensures=(), decreases=None, loops=None, rewrites=(), inserts=(),
                 props=(), key=None, attrs=(), sig_rewrites=(), recommends=(), impl_header=None,
                 extra_guard_requires=(), opens_invariants=None, no_unwind=None, for_to_while=(), closures=None, gen_name=None, lift=None):
        # R25: {'closure': name, 'captures': [(var, param type, argument expr)], 'part': 'parent' | 'lifted'}
        self.lift = lift
        self.gen_name = gen_name    # name of the function in the generated file when a sig rewrite renames it
        # R4 (structural form): {k: (header_text, proof_text)} - the k-th closure of the body gets a typed
        # header with a contract; its body (block or expression) is kept verbatim, wrapped in braces
        self.closures = dict(closures or {})
        # R15: loop ordinals whose `for x in LO..HI` header is replaced by its counter/while desugaring
        # (needed where the body contains `continue`, which Verus does not support in for-loops)
        self.for_to_while = list(for_to_while)
        self.file = file
        self.name = name
        self.impl = impl
        self.impl_header = impl_header  # text to emit instead of impl (e.g. with generics)
        self.occurrence = occurrence
        self.slot = slot
        self.mode = mode            # 'verify' or 'stub'
        self.ret = ret              # name for the return value, e.g. 'res'
        self.requires = list(requires)
        self.ensures = list(ensures)
        self.decreases = decreases
        self.loops = dict(loops or {})
        self.rewrites = list(rewrites)
        self.sig_rewrites = list(sig_rewrites)
        self.inserts = list(inserts)
        self.props = list(props)    # properties served by implicit obligations of this fn
        self.attrs = list(attrs)
        self.key = key or ((impl + "::") if impl else "") + name
        # requires that exist only because of a known finding (guard preconditions)
        self.extra_guard_requires = list(extra_guard_requires)

    def as_stub(self, slot=None):
        import copy
        f = copy.copy(self)
        f.mode = "stub"
        if slot is not None:
            f.slot = slot
        return f

    def in_slot(self, slot):
        import copy
        f = copy.copy(self)
        f.slot = slot
        return f


class Type:
    def __init__(self, file, kind, name, slot=None, rewrites=(), attrs=(), derive="drop", occurrence=1,
                 inserts=()):
        self.file = file
        self.kind = kind            # struct / enum / const / type / static
        self.name = name
        self.slot = slot
        self.rewrites = list(rewrites)
        self.inserts = list(inserts)
        self.attrs = list(attrs)
        self.derive = derive        # 'drop' | 'keep' | explicit list e.g. 'Clone, Copy'
        self.occurrence = occurrence
        self.key = name
        self.mode = "type"

    def in_slot(self, slot):
        import copy
        f = copy.copy(self)
        f.slot = slot
        return f


class Impl:
    """a whole impl block (used for trait impls), extracted as one item; fn contracts inside are
    inserted through `fns` = {fn name: Fn-like contract (requires/ensures/ret...)}"""

    def __init__(self, file, header, slot=None, rewrites=(), inserts=(), fns=None, occurrence=1, props=(),
                 mode="verify"):
        self.file = file
        self.header = header
        self.slot = slot
        self.rewrites = list(rewrites)
        self.inserts = list(inserts)
        self.fns = dict(fns or {})
        self.occurrence = occurrence
        self.props = list(props)
        self.key = "impl " + header
        self.mode = mode


class Unit:
    def __init__(self, name, skeleton, items, serves, includes=None, verus_args=(), description="", carry_facts_into_loops=True):
        self.carry_facts_into_loops = carry_facts_into_loops
        self.name = name
        self.skeleton = skeleton    # path of skeleton .rs relative to /verif/units
        self.items = list(items)
        self.serves = list(serves)
        self.includes = dict(includes or {})
        self.verus_args = list(verus_args)
        self.description = description


class Raw:
    """hand-written Verus text placed at a slot (refinement checks between a verified contract and the stub
    contracts other units use for the same function). Not customasm code; a failure inside it is reported as
    an inconsistency of the contract table (undecided), never as a violation."""

    def __init__(self, slot, key, text):
        self.slot = slot
        self.key = key
        self.text = text
        self.mode = "raw"
