#!/usr/bin/env python3
"""Re-runs every kept seeded change against the current checks: the patch is applied to a scratch copy of /repo
(VERIF_REPO), the check of the seed's property is run, the exit code is recorded in seeded/REGRESSION.json.
Nothing in /repo is touched."""
import json, os, subprocess, shutil, sys, glob
ROOT = os.path.dirname(os.path.abspath(__file__))
scratch = "/tmp/verif_seed_regress"
res = {}
only = set(sys.argv[1:])     # optional: seed ids to re-run; the other entries of REGRESSION.json are kept
if only and os.path.exists(os.path.join(ROOT, "seeded", "REGRESSION.json")):
    res = json.load(open(os.path.join(ROOT, "seeded", "REGRESSION.json")))
for d in sorted(glob.glob(os.path.join(ROOT, "seeded", "*"))):
    if not os.path.isdir(d):
        continue
    sid = os.path.basename(d)
    if only and sid not in only:
        continue
    patch = os.path.join(d, "patch.diff")
    meta = os.path.join(d, "meta.json")
    if not os.path.exists(patch) or not os.path.exists(meta):
        continue
    prop = json.load(open(meta))["property"]
    shutil.rmtree(scratch, ignore_errors=True)
    subprocess.run(["rsync", "-a", "--exclude", "target", "--exclude", ".git", "/repo/", scratch + "/"], check=True)
    ap = subprocess.run(["patch", "-p1", "--batch", "-i", patch], cwd=scratch, capture_output=True, text=True)
    if ap.returncode != 0:
        res[sid] = {"property": prop, "result": "patch no longer applies to the current tree"}
        print(sid, "-> patch does not apply")
        continue
    env = dict(os.environ, VERIF_REPO=scratch)
    r = subprocess.run([os.path.join(ROOT, "check"), prop], cwd=ROOT, env=env, capture_output=True, text=True)
    first = [l for l in r.stdout.split("\n") if l.startswith("obligation failed") or l.startswith("UNDECIDED")]
    res[sid] = {"property": prop, "exit": r.returncode,
                "result": {0: "not detected", 1: "detected", 2: "undecided"}.get(r.returncode, "?"),
                "first_line": first[0][:220] if first else ""}
    print(sid, "->", res[sid]["result"], res[sid]["first_line"][:100])
shutil.rmtree(scratch, ignore_errors=True)
json.dump(res, open(os.path.join(ROOT, "seeded", "REGRESSION.json"), "w"), indent=1)
tot = {}
for v in res.values():
    tot[v["result"]] = tot.get(v["result"], 0) + 1
print(tot)
