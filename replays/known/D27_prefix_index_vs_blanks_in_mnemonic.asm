#ruledef
{
    ld.b {x: u8} => 0x11 @ x
    ab => 0x22
    lda => 0x33
}
ld . b 5
a b
ld .b 6
ld a
