#ruledef {
  j {a} => { assert(a < 0x11)
    0x10 @ a`8 }
  j {a} => { assert(a >= 0x11)
    0x20 @ a`24 }
  show {v} => sizeof(v)`8
}
show w
w = x
x = y
y = (lbl > 7) ? 0x00 : 0x0000
j t1
j t2
j t3
lbl:
#d8 0,0,0
t3:
#d8 0
t2:
#d8 0,0
t1:
