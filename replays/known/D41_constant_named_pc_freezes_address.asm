#ruledef
{
    ld {x} => { assert(x < 0x10), 0x11 @ x`8 }
    ld {x} => { assert(x >= 0x10), 0x22 @ x`16 }
    here => 0x33 @ pc`8
}
pc = 0
ld end
here
end:
