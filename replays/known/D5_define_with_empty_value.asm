x = 1
#d8 x
