; nothing
