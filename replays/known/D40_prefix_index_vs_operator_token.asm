#subruledef reg
{
    &x => 0x11
}
#ruledef
{
    a&{r: reg} => 0xaa @ r
}

a&&x
