#ruledef
{
    ld {x: u8}, {y: u8} => 0x11 @ x @ y
    jmp {a: u16} => 0x33 @ a
    jmp {a: u8} =>
    {
        assert(a < 0x10)
        0x22 @ a
    }
}
jmp fwd
x:
ld 5, x
fwd:
