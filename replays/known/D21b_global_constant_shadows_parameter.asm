#ruledef
{
    ld {x: u8} => 0x11 @ x
    jmp {a: u16} => 0x33 @ a
    jmp {a: u8} =>
    {
        assert(a < 0x10)
        0x22 @ a
    }
}
x = 5
jmp fwd
lbl:
ld lbl
fwd:
