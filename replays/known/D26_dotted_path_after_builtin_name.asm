#d8 0
#d8 pc.nosuch
