; héllo wörld €€€€€€€€
x = 1
#d8 unknown_symbol
