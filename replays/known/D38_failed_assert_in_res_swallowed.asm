#fn f(x) => { assert(x < 10), x }
#d8 1
#res f(20)
