#bankdef a
{
 #addr 0
 #size 2
 #outp 0xfffffffffffffff8
}
#bankdef b
{
 #addr 0
 #size 2
 #outp 0
}
