#ruledef
{
    ld {x: u8} => 0x55
}
ld 300
