#d incbin("abc.bin", 1, 0xffffffffffffffff)
