#d8 0xaa
#if true
{
    #include "inc.asm"
}
#d8 0xbb
