#bankdef a
{
 #bits 1
 #addr 0
 #size 8
 #outp 0
 #fill
}
#bankdef b
{
 #bits 1
 #addr 0
 #size 1
 #outp 8
 #fill
}
