#d8 0xaa
lab:
#d8 lab
