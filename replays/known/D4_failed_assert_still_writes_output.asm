#d8 1
#assert 1 == 2
