#bankdef a { #bits 0, #addr 0, #outp 0 }
x:
#d8 1
