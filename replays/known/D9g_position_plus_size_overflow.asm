#bankdef a
{
 #addr 0
 #size 0x1fffffffffffffff
 #outp 0
}
#addr 0x1ffffffffffffffe
#d32 0
