#bankdef a { #addr 0, #outp 0xffffffffffffffff }
#d8 1
