#d incbin("empty.bin", 4, 2)
#d8 1
