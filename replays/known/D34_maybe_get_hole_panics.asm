#fn f(x) => x
#if true
{
  b = 1
  #if f == 1
  {
    #d8 2
  }
}
#d8 b
