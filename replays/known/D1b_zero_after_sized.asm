#d24 0x010203
#addr 0
#res 0
#addr 1
#d8 0xff
