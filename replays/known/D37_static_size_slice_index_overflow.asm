#ruledef
{
    ld {x} => x[0xffffffffffffffff:0]
}
ld 5
