#d inchexstr("empty.bin")
#d8 1
