#bankdef a { #addr 0, #size 0x8000000000000000, #bits 16, #outp 0 }
#d16 1
