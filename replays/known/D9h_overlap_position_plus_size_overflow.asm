#bankdef a
{
 #addr 0
 #outp 0xfffffffffffffff0
}
#addr 1
#res 0
#addr 0
#d32 1
