#bankdef a { #addr 0, #outp 0xffffffffffffffff }
#res 1
#d8 2
