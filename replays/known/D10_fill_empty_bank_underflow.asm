#bankdef a
{
 #addr 0
 #size 0
 #outp 0
 #fill
}
