; An `asm` block whose inner label needs exactly 4 inner passes to settle:
;   pass 1: `target` unknown, jmp unresolved      -> target = 0xfe
;   pass 2: jmp short (2 bytes)                   -> target = 0x100
;   pass 3: 0x100 no longer fits u8, jmp long     -> target = 0x101
;   pass 4: jmp long, target = 0x101              -> stable
#bankdef main { #addr 0xfe, #size 0x100, #outp 0 }

#ruledef
{
    jmp {a: u8}  => 0x10 @ a
    jmp {a: u16} => 0x20 @ a

    far => asm
    {
        jmp target
        target:
    }
}

far
