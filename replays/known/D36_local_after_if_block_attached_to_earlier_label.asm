#ruledef test
{
    ld {x} => 0x55 @ x`8
}
A = 1
a:
    ld 0
#if A == 1
{
b:
    ld 1
}
.x:
    ld .x
    ld a.x
