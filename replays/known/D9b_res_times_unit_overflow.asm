#bankdef a { #bits 0x200000000, #addr 0, #outp 0 }
#res 0xffffffff
