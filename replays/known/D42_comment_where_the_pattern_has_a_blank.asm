#ruledef
{
    ld {x: u8}, {y: u8} => 0x11 @ x @ y
}
ld ;*c*; 1, 2
ld;*c*; 1, 2
ld 1,;*c*; 2
ld 1, ;*c*;2
