#ruledef
{
    ld {x: u0} => 0x55 @ x
}
ld 0
