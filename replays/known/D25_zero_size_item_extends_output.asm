#ruledef
{
    nop => 0`0
}
#d8 1
#addr 4
nop
